#!/usr/bin/env python3
"""Regenerate /verif/MANIFEST.json from checks/Cxx.py (module-level META dicts),
checks/not_applicable.json and the hook commits recorded in checks/hooks.json."""
import ast
import json
import os
import sys

V = os.path.dirname(os.path.dirname(os.path.abspath(__file__)))


def meta_of(path):
    tree = ast.parse(open(path).read())
    for node in tree.body:
        if isinstance(node, ast.Assign) and any(getattr(t, "id", None) == "META" for t in node.targets):
            return ast.literal_eval(node.value)
    return None


def main():
    props = [json.loads(l)["id"] for l in open(os.path.join(V, "properties.jsonl"))]
    checks = []
    claimed = set()
    wipf = os.path.join(V, "checks", "wip.json")
    wip = json.load(open(wipf)) if os.path.exists(wipf) else []
    for pid in props:
        p = os.path.join(V, "checks", pid + ".py")
        if not os.path.exists(p) or pid in wip:
            continue
        m = meta_of(p)
        if not m:
            print("skip %s: no META" % pid, file=sys.stderr)
            continue
        claimed.add(pid)
        c = {
            "property_id": pid,
            "quick_cmd": "./check %s --tier quick" % pid,
            "thorough_cmd": "./check %s --tier thorough" % pid,
            "evidence_file": "/verif/evidence/%s.json" % pid,
            "replay_cmd_template": "./check %s --replay {path}" % pid,
            "engine": m.get("engine", "tlc+go-replay"),
            "level_claimed": {"category": m.get("level", "model_checking"), "text": m["text"],
                              "design_ref": m.get("design_ref", "DESIGN.md §5 " + pid)},
            "level_note": m["note"],
            "technique": m.get("technique", "TLA+ spec checked by TLC; TLC-generated behaviours replayed into the real code"),
        }
        checks.append(c)
    na = json.load(open(os.path.join(V, "checks", "not_applicable.json")))
    na = [x for x in na if x["property_id"] not in claimed]
    for pid in props:
        if pid not in claimed and not any(x["property_id"] == pid for x in na):
            na.append({"property_id": pid, "reason": "no check registered yet in this tree (construction in progress; see DESIGN.md §5 for the planned TLA+ module)"})
    hooks = json.load(open(os.path.join(V, "checks", "hooks.json")))
    man = {
        "version": 1,
        "setup_cmd": "./setup.sh",
        "hooks": hooks,
        "engines": [
            {"name": "tlc", "path": "/opt/veriftools/tla/tla2tools.jar", "serves_properties": sorted(claimed),
             "kind_free_text": "explicit-state model checker for the TLA+ specifications under /verif/specs (exhaustive MC_*.cfg, seeded -simulate SIM*.cfg, Trace_*.tla trace validation)"},
            {"name": "go-replay", "path": "/verif/harness", "serves_properties": sorted(claimed),
             "kind_free_text": "Go conformance harnesses injected into /repo packages with `go test -tags verif -overlay`; they replay TLC behaviours into the real code and/or record traces for TLC"},
        ],
        "checks": checks,
        "not_applicable": na,
        "notes": "Single entry point ./check <id> [--tier quick|thorough] [--replay path]; exit 0 held / 1 VIOLATION / 2 infrastructure. "
                 "Known findings: /verif/known_findings.json. See DESIGN.md.",
    }
    with open(os.path.join(V, "MANIFEST.json"), "w") as f:
        json.dump(man, f, indent=1)
        f.write("\n")
    print("MANIFEST.json: %d checks, %d not_applicable" % (len(checks), len(na)))


if __name__ == "__main__":
    main()
