#!/usr/bin/env python3
"""Warm the Go build cache: compile (not run) the test binary of every package that has harness files."""
import json, os, subprocess, tempfile
V = os.path.dirname(os.path.dirname(os.path.abspath(__file__)))
REPO = os.environ.get("VERIF_REPO", "/repo")
H = os.path.join(V, "harness")
pkgs = []
for root, dirs, files in os.walk(H):
    rel = os.path.relpath(root, H)
    if rel.startswith("_") or rel == ".":
        continue
    if any(f.endswith("_test.go") for f in files):
        pkgs.append(rel)
repl = {}
for fn in os.listdir(os.path.join(H, "_verifh")):
    repl[os.path.join(REPO, "internal/verifh", fn)] = os.path.join(H, "_verifh", fn)
for p in pkgs:
    for fn in os.listdir(os.path.join(H, p)):
        if fn.endswith(".go"):
            repl[os.path.join(REPO, p, "zz_verif_" + fn)] = os.path.join(H, p, fn)
d = tempfile.mkdtemp(prefix="verif-warm-")
ov = os.path.join(d, "ov.json")
json.dump({"Replace": repl}, open(ov, "w"))
e = dict(os.environ); e["GOPROXY"] = "off"
for k in ("GOFLAGS", "GOTOOLCHAIN", "GOSUMDB"):
    e.pop(k, None)
procs = []
for p in pkgs:
    subprocess.run(["go", "test", "-tags", "verif", "-overlay", ov, "-vet=off", "-count=1", "-run", "^$", "./" + p],
                   cwd=REPO, env=e, stdout=subprocess.DEVNULL, stderr=subprocess.DEVNULL)
import shutil; shutil.rmtree(d, ignore_errors=True)
