#!/usr/bin/env python3
"""dev aid: run one saved replay of the Db harness again (real code), e.g.
   lib/replay_db.py C23 c23 replays/C23-xxxx.json      (uses the seed stored in the replay so that the concretisation is the same)"""
import json, os, sys
sys.path.insert(0, os.path.dirname(os.path.abspath(__file__)))
import vlib
prop, mode, path = sys.argv[1:4]
r = json.load(open(path)); beh = r["case"]["behaviour"]; seed = int(r["case"].get("seed", 1))
os.environ["VERIF_SEED"] = str(seed)
ctx = vlib.Ctx(prop, "quick", seed, None)
try:
    inp = ctx.write_ndjson("behaviours.ndjson", [beh])
    files = ["db_replay_test.go"] + (["db_reopen_extras_test.go"] if mode in ("c23", "c53") else [])
    gr = ctx.go_test("tsdb", files, "^TestVerifDbReplay$", env={"VERIF_IN": inp, "VERIF_MODE": mode}, out_name="one-result.ndjson")
    for rec in gr.records if hasattr(gr, "records") else []:
        if rec.get("kind") in ("violation", "deviation", "drift", "infra"):
            print(rec.get("kind"), rec.get("sig"), (rec.get("msg") or "")[:400])
    print("go test rc", getattr(gr, "rc", None))
finally:
    ctx.cleanup()
