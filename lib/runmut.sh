#!/bin/sh
# usage: runmut.sh <Cxx> <mutant.py>... ; applies each mutant to the scratch worktree, runs the check, restores
W=/tmp/coord/mut
P=$1; shift
git -C $W checkout -q --detach $(git -C /repo rev-parse HEAD) 2>/dev/null
for m in "$@"; do
  git -C $W checkout -q -- . ; python3 $m $W || { echo "MUTANT $m: does not apply"; continue; }
  (cd $W && GOPROXY=off go build ./tsdb/... ./storage/... 2>&1 | head -3)
  out=$(cd /verif && VERIF_REPO=$W ./check $P 2>&1 | grep -E "VIOLATION|INFRA|done:" | head -3)
  echo "MUTANT $(basename $m): $out"
done
git -C $W checkout -q -- .
