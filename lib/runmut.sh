#!/bin/sh
# usage: [VERIF_PARTS=..] runmut.sh <Cxx> <mutant.py>... ; applies each mutant to a scratch worktree of /repo HEAD, runs the check, restores
W=${MUTW:-/tmp/coord/mut}
P=$1; shift
git -C $W checkout -q -- . 2>/dev/null
git -C $W checkout -q --detach $(git -C /repo rev-parse HEAD) 2>/dev/null
for m in "$@"; do
  git -C $W checkout -q -- . ; python3 $m $W || { echo "MUTANT $m: does not apply"; continue; }
  out=$(cd /verif && VERIF_REPO=$W ./check $P 2>&1 | grep -E "VIOLATION|INFRA|done:" | head -3)
  echo "MUTANT $(basename $m): $out"
done
git -C $W checkout -q -- .
