"""Common machinery for /verif checks (python3 stdlib only).

A check is a python module checks/Cxx.py with a function run(ctx).  It uses
ctx.tlc(...) to model-check / simulate a TLA+ module and collect emitted
behaviours, ctx.go_test(...) to drive the real code from /repo's working tree
with harness files injected through `go test -overlay`, ctx.tlc_trace(...) to
validate recorded traces against a Trace_*.tla module, and ctx.finish(...) to
write the evidence file and exit.

Exit codes: 0 property held on everything explored (possibly with KNOWN-FINDING
lines), 1 violation observed on the real code (VIOLATION line printed),
2 infrastructure problem (never a verdict).
"""
import hashlib
import json
import os
import re
import shutil
import subprocess
import sys
import tempfile
import time

VERIF = os.path.dirname(os.path.dirname(os.path.abspath(__file__)))
REPO = os.environ.get("VERIF_REPO", "/repo")
MODPATH = "github.com/prometheus/prometheus"


class Infra(Exception):
    """Infrastructure failure: exit 2, never a verdict."""


class ModelViolation(Infra):
    """TLC found a counterexample in the model alone. Carries the result so that a check can replay the
    counterexample's behaviour (res.cex[-1]["hist"]) on the real code before deciding."""

    def __init__(self, res, spec_dir, module, cfg):
        self.res = res
        tail = "\n".join([l for l in res.out.splitlines() if not l.startswith('"@@')][-25:])
        super().__init__("model-only counterexample (%s violated in %s/%s %s): the model is wrong or the design admits a "
                         "bad state; not a verdict about the code until reproduced\n%s" % (res.violated, spec_dir, module, cfg, tail))


class TLCResult:
    def __init__(self):
        self.rc = None
        self.out = ""
        self.generated = 0
        self.distinct = 0
        self.depth = 0
        self.emitted = []      # parsed JSON of every '@@TR ' line
        self.tagged = {}       # other '@@XX ' tags -> list of parsed JSON
        self.violated = None   # name of violated invariant/property, if any
        self.error = None      # other TLC error text
        self.coverage_zero = []
        self.wall = 0.0
        self.cex = None        # on a violated invariant: list of states (dicts) of the counterexample

    @property
    def ok(self):
        return self.violated is None and self.error is None


class GoResult:
    def __init__(self):
        self.rc = None
        self.out = ""
        self.records = []      # parsed ndjson result records written by the harness
        self.wall = 0.0

    def by_kind(self, kind):
        return [r for r in self.records if r.get("kind") == kind]


_TAG_RE = re.compile(r'^"?(@@[A-Z]+) (.*)$')


def _parse_tagged(line):
    """TLC prints PrintT("@@TR " \\o json) as a quoted TLA+ string with \\" escapes."""
    s = line.rstrip("\n")
    if not s.startswith('"@@') and not s.startswith("@@"):
        return None
    if s.startswith('"'):
        try:
            s = json.loads(s)
        except Exception:
            # TLA+ string escapes are a subset of JSON's; fall back to manual unescape
            s = s[1:-1].replace('\\"', '"').replace("\\\\", "\\")
    m = re.match(r"^(@@[A-Z]+) (.*)$", s, re.S)
    if not m:
        return None
    try:
        return m.group(1), json.loads(m.group(2))
    except Exception as e:
        raise Infra("cannot parse emitted line: %r (%s)" % (s[:200], e))


class Ctx:
    def __init__(self, prop, tier, seed, replay=None):
        self.prop = prop
        self.tier = tier
        self.seed = seed
        self.replay = replay
        self.t0 = time.time()
        self.scratch = tempfile.mkdtemp(prefix="verif-%s-" % prop)
        self.repo = REPO
        self.verif = VERIF
        self.violations = []     # list of dict(msg, sig, replay)
        self.known = []          # list of (finding, msg)
        self.drift = 0
        self.states = 0
        self.transitions = 0
        self.traces = 0
        self.samples = []
        self.assumptions = []
        self.extra = {}
        self.level = "model_checking"
        self._kf = None
        self.quick = tier == "quick"
        self._parts = [x for x in os.environ.get("VERIF_PARTS", "").split(",") if x]   # development aid only

    # ------------------------------------------------------------------ util
    def want(self, part):
        """Development aid: VERIF_PARTS=a,sim restricts a check to the named parts (registered commands never set it)."""
        return not self._parts or part in self._parts

    def log(self, *a):
        print("[%s %6.1fs]" % (self.prop, time.time() - self.t0), *a, flush=True)

    def path(self, *p):
        return os.path.join(self.verif, *p)

    def tmp(self, name):
        return os.path.join(self.scratch, name)

    def cleanup(self):
        if os.environ.get("VERIF_KEEP"):
            self.log("scratch kept at", self.scratch)
            return
        shutil.rmtree(self.scratch, ignore_errors=True)

    def write_ndjson(self, name, items):
        p = self.tmp(name)
        with open(p, "w") as f:
            for it in items:
                f.write(json.dumps(it, separators=(",", ":")) + "\n")
        return p

    # ------------------------------------------------------------------- TLC
    def tlc(self, spec_dir, module, cfg, *, workers=None, simulate=None, depth=None,
            coverage=False, timeout=900, deque=False, files=None, heap=None,
            allow_violation=False, dfid=None, extra_args=None, constants=None):
        """Run TLC on specs/<spec_dir>/<module>.tla with config <cfg> in a scratch copy.

        simulate: number of walks (uses -simulate num=N, -depth depth, -seed VERIF_SEED)
        files: dict name->path copied next to the spec (e.g. trace.ndjson)
        constants: dict NAME->TLA text, appended to a copy of the cfg as CONSTANT lines
        """
        src = self.path("specs", spec_dir)
        run_dir = tempfile.mkdtemp(prefix="tlc-", dir=self.scratch)
        for fn in os.listdir(src):
            if fn.endswith((".tla", ".cfg", ".json", ".ndjson")):
                shutil.copy(os.path.join(src, fn), run_dir)
        # modules shared across directories
        common = self.path("specs", "common")
        if os.path.isdir(common):
            for fn in os.listdir(common):
                if fn.endswith(".tla") and not os.path.exists(os.path.join(run_dir, fn)):
                    shutil.copy(os.path.join(common, fn), run_dir)
        for name, p in (files or {}).items():
            shutil.copy(p, os.path.join(run_dir, name))
        cfg_path = os.path.join(run_dir, cfg)
        if constants:
            with open(cfg_path, "a") as f:
                f.write("\nCONSTANTS\n")
                for k, v in constants.items():
                    f.write("  %s = %s\n" % (k, v))
        meta = os.path.join(run_dir, "meta")
        if workers is None:
            workers = "1" if (simulate or deque) else "auto"
        cmd = ["java", "-XX:+UseParallelGC", "-Xss64m"]
        cmd.append("-Xmx%s" % (heap or "6g"))
        if deque:
            cmd.append("-Dtlc2.tool.queue.IStateQueue=StateDeque")
        cmd += ["-cp", "/opt/veriftools/tla/tla2tools.jar:/opt/veriftools/tla/CommunityModules-deps.jar",
                "tlc2.TLC", "-metadir", meta, "-workers", str(workers), "-config", cfg,
                "-noGenerateSpecTE"]
        if simulate:
            cmd += ["-simulate", "num=%d" % simulate, "-depth", str(depth or 50),
                    "-seed", str(getattr(self, "tlc_seed", None) or self.seed)]
        elif dfid:
            cmd += ["-dfid", str(dfid)]
        cexp = os.path.join(run_dir, "cex.json")
        cmd += ["-dumpTrace", "json", cexp]
        if coverage:
            cmd += ["-coverage", "1"]
        if extra_args:
            cmd += list(extra_args)
        cmd.append(module + ".tla")
        res = TLCResult()
        t = time.time()
        try:
            p = subprocess.run(cmd, cwd=run_dir, stdout=subprocess.PIPE, stderr=subprocess.STDOUT,
                               timeout=timeout, text=True, errors="replace")
        except subprocess.TimeoutExpired as e:
            out = e.stdout if isinstance(e.stdout, str) else (e.stdout or b"").decode("utf8", "replace")
            subprocess.run(["pkill", "-f", run_dir], check=False)
            if simulate:
                # simulation under an outer timeout: keep what was produced
                res.rc, res.out = 0, out
                self._parse_tlc(res)
                res.wall = time.time() - t
                return res
            raise Infra("TLC timeout after %ss on %s/%s %s" % (timeout, spec_dir, module, cfg))
        res.rc, res.out = p.returncode, p.stdout
        res.wall = time.time() - t
        self._parse_tlc(res)
        shutil.rmtree(meta, ignore_errors=True)
        if res.rc not in (0, 10, 11, 12, 13) and not res.error and not res.violated:
            res.error = "TLC exited with status %s without a verdict (killed?)" % res.rc
        if res.rc == 0 and not simulate and res.generated == 0 and "Model checking completed" not in res.out:
            res.error = "TLC printed no summary"
        if res.violated and os.path.exists(cexp):
            try:
                with open(cexp) as f:
                    res.cex = [st[1] for st in json.load(f)["counterexample"]["state"]]
            except Exception:
                res.cex = None
        if res.error and not res.violated:
            tail = "\n".join(res.out.splitlines()[-40:])
            raise Infra("TLC error on %s/%s %s: %s\n%s" % (spec_dir, module, cfg, res.error, tail))
        if res.violated and not allow_violation:
            raise ModelViolation(res, spec_dir, module, cfg)
        if False:
            tail = "\n".join([l for l in res.out.splitlines() if not l.startswith('"@@')][-60:])
            raise Infra("model-only counterexample (%s violated in %s/%s %s): the model is wrong or the "
                        "design admits a bad state; not a verdict about the code until reproduced\n%s"
                        % (res.violated, spec_dir, module, cfg, tail))
        return res

    def _parse_tlc(self, res):
        for line in res.out.splitlines():
            if line.startswith('"@@') or line.startswith("@@"):
                pr = _parse_tagged(line)
                if pr:
                    tag, val = pr
                    if tag == "@@TR":
                        res.emitted.append(val)
                    else:
                        res.tagged.setdefault(tag, []).append(val)
                continue
            m = re.match(r"^(\d+) states generated, (\d+) distinct states found", line)
            if m:
                res.generated, res.distinct = int(m.group(1)), int(m.group(2))
            m = re.match(r"^The depth of the complete state graph search is (\d+)", line)
            if m:
                res.depth = int(m.group(1))
            m = re.match(r"^Error: Invariant (\S+) is violated", line)
            if m:
                res.violated = m.group(1)
            m = re.match(r"^Error: Action property (\S+) is violated", line)
            if m:
                res.violated = m.group(1)
            if line.startswith("Error: Temporal properties were violated"):
                res.violated = "temporal"
            if line.startswith("Error: Deadlock reached"):
                res.violated = "deadlock"
            m = re.match(r"^Error: (.*)", line)
            if m and res.violated is None and res.error is None:
                txt = m.group(1)
                if "behavior up to this point" in txt:
                    continue
                res.error = txt
            m = re.match(r"^\s*<(\w+) line .*>: (\d+):(\d+)$", line)
            if m and m.group(2) == "0" and m.group(3) == "0":
                res.coverage_zero.append(m.group(1))
        # simulation mode prints a different summary
        if res.generated == 0:
            m = re.search(r"(\d+) states checked", res.out)
            if m:
                res.generated = res.distinct = int(m.group(1))
        # a postcondition failure
        if re.search(r"Error: .*[Pp]ostcondition", res.out):
            res.violated = res.violated or "postcondition"
            res.error = None
        if res.violated:
            res.error = None

    def account(self, res):
        """Accumulate TLC state/transition counts for the evidence file."""
        self.states += res.distinct
        self.transitions += res.generated

    # -------------------------------------------------------------------- Go
    def go_test(self, pkg, files, run, *, env=None, tags="verif", timeout="15m", race=False,
                out_name="result.ndjson", extra_overlay=None, wall_timeout=None, p=None, args=None):
        """Run `go test` in /repo on package <pkg> with harness files injected by overlay.

        files: names under /verif/harness/<pkg>/ ; each is mapped to
        /repo/<pkg>/zz_verif_<name>. The shared helper package
        internal/verifh is always added. The harness writes ndjson records to
        $VERIF_OUT, which are parsed into GoResult.records.
        """
        repl = {}
        hdir = self.path("harness", "_verifh")
        for fn in os.listdir(hdir):
            if fn.endswith(".go"):
                repl[os.path.join(self.repo, "internal/verifh", fn)] = os.path.join(hdir, fn)
        for fn in files:
            srcp = self.path("harness", pkg, fn)
            if not os.path.exists(srcp):
                raise Infra("harness file missing: " + srcp)
            repl[os.path.join(self.repo, pkg, "zz_verif_" + fn)] = srcp
        for k, v in (extra_overlay or {}).items():
            repl[os.path.join(self.repo, k)] = v
        ov = tempfile.mktemp(prefix="overlay-", suffix=".json", dir=self.scratch)
        with open(ov, "w") as f:
            json.dump({"Replace": repl}, f)
        out_path = self.tmp(out_name)
        if os.path.exists(out_path):
            os.unlink(out_path)
        e = dict(os.environ)
        for k in ("GOFLAGS", "GOTOOLCHAIN", "GOSUMDB"):
            e.pop(k, None)
        e.update({"GOPROXY": "off", "VERIF_OUT": out_path, "VERIF_SEED": str(self.seed),
                  "VERIF_TIER": self.tier, "VERIF_SCRATCH": self.scratch, "VERIF_DIR": self.verif,
                  "TMPDIR": self.scratch})
        e.update(env or {})
        cmd = ["go", "test", "-tags", tags, "-overlay", ov, "-vet=off", "-count=1",
               "-timeout", timeout, "-run", run]
        if race:
            cmd.append("-race")
        if p:
            cmd += ["-p", str(p)]
        cmd.append("./" + pkg)
        if args:
            cmd += ["-args"] + list(args)
        gr = GoResult()
        t = time.time()
        try:
            pr = subprocess.run(cmd, cwd=self.repo, env=e, stdout=subprocess.PIPE,
                                stderr=subprocess.STDOUT, text=True, errors="replace",
                                timeout=wall_timeout or 3600)
        except subprocess.TimeoutExpired:
            raise Infra("go test wall timeout on %s -run %s" % (pkg, run))
        gr.rc, gr.out = pr.returncode, pr.stdout
        gr.wall = time.time() - t
        if os.path.exists(out_path):
            with open(out_path) as f:
                for line in f:
                    line = line.strip()
                    if line:
                        try:
                            gr.records.append(json.loads(line))
                        except Exception:
                            raise Infra("bad harness record: " + line[:200])
        if "[build failed]" in gr.out or "[setup failed]" in gr.out:
            raise Infra("harness does not build against the current tree:\n" + gr.out[-4000:])
        if "no tests to run" in gr.out:
            raise Infra("harness test %s not found in %s" % (run, pkg))
        return gr

    def absorb(self, gr, *, require_done=True, label=""):
        """Fold harness records into the verdict.

        record kinds: violation {msg, sig?, case?}, drift {msg}, infra {msg},
        stat {...} (merged into extra), sample {...}, done {n}.
        A harness that exits non-zero without a violation record is infra.
        """
        done = False
        for r in gr.records:
            k = r.get("kind")
            if k in ("violation", "deviation"):
                self.add_violation(r.get("msg", ""), r.get("sig", ""), r.get("case"))
            elif k == "drift":
                self.drift += 1
                if self.drift <= 5:
                    self.log("model drift:", r.get("msg", "")[:300])
            elif k == "infra":
                raise Infra("harness reported: " + r.get("msg", ""))
            elif k == "stat":
                for kk, vv in r.items():
                    if kk == "kind":
                        continue
                    if isinstance(vv, (int, float)) and isinstance(self.extra.get(kk), (int, float)):
                        self.extra[kk] += vv
                    else:
                        self.extra[kk] = vv
            elif k == "sample":
                if len(self.samples) < 6:
                    self.samples.append(r.get("case"))
            elif k == "done":
                done = True
                self.traces += int(r.get("n", 0))
        # a harness that crashed or was killed gives no verdict, whatever records it managed to write before;
        # only *unlisted* violations (which already decide exit 1) excuse a missing done record
        unlisted = len(self.violations) > 0
        if gr.rc != 0 and not gr.by_kind("violation"):
            raise Infra("harness %s failed without a verdict (rc=%s):\n%s" % (label, gr.rc, gr.out[-4000:]))
        if require_done and not done and not unlisted:
            raise Infra("harness %s did not finish (no done record):\n%s" % (label, gr.out[-3000:]))

    # ------------------------------------------------------- verdict pieces
    def known_findings(self):
        if self._kf is None:
            p = self.path("known_findings.json")
            self._kf = []
            if os.path.exists(p):
                with open(p) as f:
                    self._kf = json.load(f).get("findings", [])
        return self._kf

    def add_violation(self, msg, sig="", case=None):
        # a signature may list alternatives separated by "||" (a behaviour that passed the triggers of several
        # known findings attributes a mismatch to any of them)
        alts = [x for x in (sig or "").split("||") if x]
        for kf in self.known_findings():
            if kf.get("property") == self.prop and kf.get("status") == "open" and \
                    any(re.fullmatch(kf.get("signature_regex", "$^"), a) for a in alts):
                if not any(k[0].get("id") == kf.get("id") for k in self.known):
                    self.known.append((kf, msg))
                return
        if len(self.violations) < 20:
            self.violations.append({"msg": msg, "sig": sig, "case": case})

    def finish(self, *, rule=None, exhaustive=None):
        wall = time.time() - self.t0
        cov = {}
        if self.level == "model_checking":
            cov["states"] = int(self.states)
            cov["transitions"] = int(self.transitions)
            cov["traces_validated_against_impl"] = int(self.traces)
        else:
            cov["evaluations"] = int(self.extra.get("evaluations", self.traces))
            cov["distinct_nontrivial"] = int(self.extra.get("distinct_nontrivial", 0))
        cov["samples"] = self.samples[:6] if self.samples else []
        if rule:
            cov["rule"] = rule
        if exhaustive is not None:
            cov["exhaustive"] = bool(exhaustive)
        cov["model_drift"] = self.drift
        for k, v in self.extra.items():
            if k not in cov:
                cov[k] = v
        ev = {"property_id": self.prop, "tier": self.tier, "seed": int(self.seed), "level": self.level,
              "coverage": cov, "assumptions": self.assumptions, "wall_s": round(wall, 2),
              "violations": len(self.violations),
              "known_findings": [k[0].get("id") for k in self.known]}
        os.makedirs(self.path("evidence"), exist_ok=True)
        with open(self.path("evidence", self.prop + ".json"), "w") as f:
            json.dump(ev, f, indent=1, sort_keys=True, default=str)
            f.write("\n")
        for kf, msg in self.known:
            print("KNOWN-FINDING: property=%s %s [%s] %s" % (self.prop, kf.get("what", ""), kf.get("id"), msg[:200]))
        rc = 0
        if self.violations:
            os.makedirs(self.path("replays"), exist_ok=True)
            for v in self.violations[:5]:
                h = hashlib.sha1(json.dumps(v, sort_keys=True, default=str).encode()).hexdigest()[:10]
                rp = self.path("replays", "%s-%s.json" % (self.prop, h))
                with open(rp, "w") as f:
                    json.dump({"property": self.prop, "seed": self.seed, "tier": self.tier, **v}, f, indent=1, default=str)
                print("VIOLATION property=%s replay=%s" % (self.prop, rp))
                print("  " + v["msg"][:1000])
            rc = 1
        if self.level == "model_checking" and (cov["states"] < 1 or cov["transitions"] < 1 or not cov["samples"]):
            raise Infra("evidence would be empty (states=%s transitions=%s samples=%d)"
                        % (cov["states"], cov["transitions"], len(cov["samples"])))
        self.log("done: states=%d transitions=%d traces=%d drift=%d violations=%d known=%d wall=%.1fs"
                 % (self.states, self.transitions, self.traces, self.drift, len(self.violations), len(self.known), wall))
        return rc


def main(argv):
    import argparse
    import importlib.util
    ap = argparse.ArgumentParser()
    ap.add_argument("prop")
    ap.add_argument("--tier", default=os.environ.get("VERIF_TIER", "quick"), choices=["quick", "thorough"])
    ap.add_argument("--replay", default=None)
    a = ap.parse_args(argv)
    seed = int(os.environ.get("VERIF_SEED", "1") or "1")
    modp = os.path.join(VERIF, "checks", a.prop + ".py")
    if not os.path.exists(modp):
        print("no such check:", a.prop)
        return 2
    spec = importlib.util.spec_from_file_location("check_" + a.prop, modp)
    mod = importlib.util.module_from_spec(spec)
    sys.path.insert(0, os.path.join(VERIF, "lib"))
    sys.path.insert(0, os.path.join(VERIF, "checks"))
    spec.loader.exec_module(mod)
    ctx = Ctx(a.prop, a.tier, seed, a.replay)
    try:
        rc = mod.run(ctx)
        if rc is None:
            rc = ctx.finish()
        return rc
    except Infra as e:
        print("INFRA property=%s: %s" % (a.prop, e))
        return 2
    except Exception:
        import traceback
        traceback.print_exc()
        print("INFRA property=%s: driver exception" % a.prop)
        return 2
    finally:
        ctx.cleanup()
