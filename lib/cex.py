#!/usr/bin/env python3
"""dev aid: run TLC on specs/<dir>/<module> <cfg> and print the violated invariant plus the last state compactly."""
import os, re, shutil, subprocess, sys, tempfile
d, mod, cfg = sys.argv[1:4]
extra = sys.argv[5:]   # e.g. -simulate num=50 -depth 120 -seed 1  ; constants as NAME=VALUE
V = os.path.dirname(os.path.dirname(os.path.abspath(__file__)))
run = tempfile.mkdtemp(prefix="cex-")
for fn in os.listdir(os.path.join(V, "specs", d)):
    shutil.copy(os.path.join(V, "specs", d, fn), run)
consts = [x for x in extra if "=" in x and not x.startswith("num=")]
extra = [x for x in extra if x not in consts]
if consts:
    with open(os.path.join(run, cfg), "a") as f:
        f.write("\nCONSTANTS\n" + "\n".join("  " + c.replace("=", " = ", 1) for c in consts) + "\n")
p = subprocess.run(["java", "-XX:+UseParallelGC", "-Xmx6g", "-cp", "/opt/veriftools/tla/tla2tools.jar:/opt/veriftools/tla/CommunityModules-deps.jar",
                    "tlc2.TLC", "-workers", sys.argv[4] if len(sys.argv) > 4 else "8", "-config", cfg, "-noGenerateSpecTE"] + extra + [mod + ".tla"],
                   cwd=run, stdout=subprocess.PIPE, stderr=subprocess.STDOUT, text=True, timeout=1800)
t = "\n".join(l for l in p.stdout.splitlines() if not l.startswith('"@@'))
shutil.rmtree(run, ignore_errors=True)
if "Error:" not in t:
    print("\n".join(t.splitlines()[-4:])); sys.exit(0)
i = t.index("Error:")
print(t[i:i + 100].splitlines()[0])
st = t[i:].split("\nState ")
last = st[-1]
def strip_exp(x):
    out = []; i = 0
    while True:
        j = x.find("exp |->", i)
        if j < 0:
            out.append(x[i:]); break
        out.append(x[i:j] + "exp..")
        k = x.index("[", j); depth = 0
        while True:
            if x[k] == "[": depth += 1
            elif x[k] == "]":
                depth -= 1
                if depth == 0: break
            k += 1
        i = k + 1
    return "".join(out)
last = strip_exp(last)
last = re.sub(r"\s+", " ", last)
last = last.replace("/\\", "\n/\\").replace("[ app", "\n   [ app").replace("[ a |->", "\n   [ a |->")
print(last[:6000])
