#!/bin/sh
# usage: verify_seed.sh <Cxx> <n> <go pkg dir of the demo> <demo test regex>
# confirms an independently written breaking change (patch applies, demo fails with / passes without), then runs ./check against it
P=$1; N=$2; PKG=$3; RUN=$4
OUT=/tmp/seed-$P-$N-out; W=/tmp/coord/seedw-$P-$N
[ -f $OUT/patch.diff ] || { echo "no patch"; exit 2; }
git -C /repo worktree add -q --detach $W $(git -C /repo rev-parse HEAD) || exit 2
cd $W
mkdir -p $W/$PKG; for f in $OUT/*_test.go; do cp $f $W/$PKG/zz_seed_$(basename $f); done
echo "== demo WITHOUT patch"; GOPROXY=off timeout 1800 go test -count=1 -run "$RUN" ./$PKG 2>&1 | tail -3
git apply $OUT/patch.diff || { echo "PATCH DOES NOT APPLY to current HEAD"; }
echo "== demo WITH patch"; GOPROXY=off timeout 1800 go test -count=1 -run "$RUN" ./$PKG 2>&1 | tail -3
rm -f $W/$PKG/zz_seed_*
echo "== ./check $P against patched tree"
cd /verif && VERIF_REPO=$W timeout 3000 ./check $P 2>&1 | grep -E "VIOLATION|KNOWN|INFRA|done:" | cut -c1-300 | head -6
git -C /verif checkout -- evidence/$P.json   # the run above wrote evidence about the patched tree
git -C /repo worktree remove --force $W
