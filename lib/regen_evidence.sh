#!/bin/sh
# usage: regen_evidence.sh <log> Cxx... ; runs the quick tier (seed 1) of each check in /verif against /repo and records exit codes
LOG=$1; shift
cd /verif
for c in "$@"; do
  s=$(date +%s)
  out=$(VERIF_SEED=1 VERIF_TIER=quick ./check $c --tier quick 2>&1); rc=$?
  e=$(date +%s)
  echo "$c rc=$rc wall=$((e-s))s $(echo "$out" | grep -E 'VIOLATION|INFRA' | head -2 | cut -c1-200)" >> $LOG
done
echo "STREAM DONE" >> $LOG
